"""C19 - a limited user's throughput never exceeds the configured rates
(spec/TokenBucket.tla, spec/TokenBucketDefs.tla, spec/TokenBucketTrace.tla, harness/multiplex/c19_test.go)."""
import json
import os
import re
from concurrent.futures import ThreadPoolExecutor
import lib

LEVEL = "model_checking"
ASSUME = [
    "the metered quantity is what the switchboard hands to / takes from a connection (the argument of conn.Write after "
    "txWait, the result of conn.Read before rxWait); framing added below it (5-byte record header of common.TLSConn, "
    "TCP/IP) is not counted, as in Cloak's own usage accounting",
    "rx is observed when the limited session opens the frame (pass-through wrapper around the session's payload AEAD, "
    "first action of recvDataFromRemote after rxWait); plain (no AEAD) sessions share the same switchboard code and are "
    "not recorded",
    "one user = one LimitedValve: the multiplex scenarios pass one MakeValve result to every SessionConfig; the server scenarios "
    "obtain the sessions from userPanel.GetUser / ActiveUser.GetSession with a stub user manager that reports the rates "
    "(the handshake and the bolt database in front of it belong to C06/C07/C16/C18); in the racing scenarios the stub holds "
    "AuthenticateUser until all first connections are inside it, unless the caller holds the panel's lock across the call",
    "time is the virtual clock of testing/synctest: sleepers wake exactly on time. On a real clock a sleeper that wakes late "
    "sends together with the next one: TLC refutes the bound for Prompt = FALSE (excess <= one message per waiter); "
    "scheduling latency is outside the statement",
    "life cycle: the bound is the literal one; an excess of at most one burst per re-activation of the user inside the interval, "
    "with one valve at every instant, is classified as the known defect D18 (fresh buckets on reconnect, flag "
    "FreshBucketOnReactivation in TokenBucketPanel.tla) and reported under its own keys, anything beyond it under "
    "*-exceeds:across-lifecycle; a handshake that finds a record on which closeAllSessions has already run is the known finding "
    "D9 (C15/C17 lookup-gap-vs-terminate) and is excluded from the schedules (TokenBucketPanel.tla, NoLookupGap)",
    "low-rate relaxation: where a single message is larger than the burst (2 kB/s with 16 kB frames) the bound checked "
    "is rate*t + burst + that one message; TLC refutes the unrelaxed bound for such configurations",
    "juju/ratelimit's Take arithmetic is modelled from its source (v1.0.2) and compared with the library on random walks of "
    "the model (TokenBucketGen); the recorded rates are those for which NewBucketWithRate finds quantum 1 with an exact "
    "fill interval (2e3, 2e4, 1e5 B/s)",
]

W2, W3 = "{w1, w2}", "{w1, w2, w3}"

# Code-faithful deviation flags of TokenBucketPanel.tla. FreshBucketOnReactivation = defect D18 (known finding, keys
# tx-/rx-exceeds:burst-refill-on-reactivation): a terminated user gets brand-new full buckets with the next handshake.
# Drop the flag together with a repair in /repo (the check turns INCONCLUSIVE when model and code disagree about it).
CODE_FAITHFUL = {"FreshBucketOnReactivation": True}
REFILL_KEYS = ("tx-exceeds:burst-refill-on-reactivation", "rx-exceeds:burst-refill-on-reactivation")
D18_NAME = "d18-reconnect-cycle"


def d18_behaviour():
    """The one deterministic demonstration of D18: a backlogged user drains the burst, its only session is closed, it
    reconnects at once - three times inside one virtual second. Same format as the TLC-generated schedules (it is the
    sequential-churn behaviour hs, close, hs, close, hs, close, hs of TokenBucketPanel with no gate switched on)."""
    steps = []
    for k in range(1, 5):
        steps.append({"ev": {"a": "hs", "sid": k, "rec": k, "fresh": True}, "obs": {"valves": 1, "live": [k], "cur": k}})
        if k < 4:
            steps.append({"ev": {"a": "close", "p": k, "rec": k, "sid": k, "at": "done"}, "obs": {"valves": 0, "live": [], "cur": 0}})
    return {"bad": False, "mode": "strict", "name": D18_NAME, "gates": [], "step_ms": 50, "tail_ms": 1000, "steps": steps}


def mc(ctx, tag, waiters, quanta, fis, bursts, backlog, sizes, maxtime, mode="before", capf=1, relax=False,
       prompt=True, history=False, own_bucket=False, check_then_take=False, closing_skips=False, invs="TypeOK UpperVQ NotStarved", expect_violation=False, workers=2, timeout=1500):
    return lib.run_tlc(ctx, "TokenBucket", "TokenBucket_mc.cfg",
                       {"WAITERS": waiters, "QUANTA": quanta, "FIS": fis, "BURSTS": bursts, "BACKLOG": backlog,
                        "SIZES": sizes, "MAXTIME": maxtime, "MODE": mode, "CAPFACTOR": capf,
                        "RELAX": "TRUE" if relax else "FALSE", "PROMPT": "TRUE" if prompt else "FALSE",
                        "HISTORY": "TRUE" if history else "FALSE", "OWNBUCKET": "TRUE" if own_bucket else "FALSE", "CHECKTHENTAKE": "TRUE" if check_then_take else "FALSE",
                        "CLOSINGSKIPS": "TRUE" if closing_skips else "FALSE", "INVS": invs},
                       tag=tag, expect_violation=expect_violation, workers=workers, timeout=timeout)


def validate(ctx, path, tag):
    return lib.run_tlc(ctx, "TokenBucketTrace", "TokenBucketTrace.cfg", workers=1, env={"VERIF_TRACE": path},
                       expect_violation=True, tag=tag, timeout=1500)


def cex_field(block, name):
    m = re.search(r"/\\ %s = (.*)" % re.escape(name), block)
    return m.group(1).strip() if m else None


def run(ctx):
    q = ctx.quick()
    if os.environ.get("VERIF_C19_SKIP_MC") == "1":   # development aid (mutant runs): the model runs do not depend on /repo
        return run_impl(ctx, q, ThreadPoolExecutor(max_workers=6), {}, {})
    pool = ThreadPoolExecutor(max_workers=6)
    wk = 2 if q else 4
    # 1. the design model, exhaustively on the discrete clock (one run sweeps quanta x fill intervals x bursts x backlog)
    pos = {}
    if q:
        pos["mc_main"] = pool.submit(mc, ctx, "mc_main", W2, "{1, 2}", "{1, 2}", "{3, 4}", "{0, 1}", "{1, 2, 3}", 8, workers=4)
        pos["mc_intervals"] = pool.submit(mc, ctx, "mc_intervals", W2, "{1, 2}", "{1, 2}", "{3}", "{0, 1}", "{1, 3}", 4, history=True,
                                          invs="TypeOK UpperVQ UpperIntervals NotStarved")
        pos["mc_lowrate"] = pool.submit(mc, ctx, "mc_lowrate", W2, "{1}", "{1, 2}", "{2, 3}", "{0, 1}", "{1, 3, 5}", 10, relax=True)
    else:
        pos["mc_main"] = pool.submit(mc, ctx, "mc_main", W3, "{1, 2}", "{1, 2, 3}", "{3, 4, 5}", "{0, 1, 2}", "{1, 2, 3}", 12, workers=8)
        pos["mc_main_1w"] = pool.submit(mc, ctx, "mc_main_1w", "{w1}", "{1, 2, 3}", "{1, 2, 3}", "{4, 5, 6}", "{0, 1}", "{1, 2, 3, 4}", 20)
        pos["mc_intervals"] = pool.submit(mc, ctx, "mc_intervals", W2, "{1, 2}", "{1, 2}", "{3, 4}", "{0, 1}", "{1, 2, 3}", 6, history=True,
                                          invs="TypeOK UpperVQ UpperIntervals NotStarved", workers=wk)
        pos["mc_lowrate"] = pool.submit(mc, ctx, "mc_lowrate", W3, "{1, 2}", "{1, 2}", "{2, 3}", "{0, 1}", "{1, 3, 5}", 12, relax=True, workers=wk)
    # 2. the bound is not vacuous: each of these must be refuted
    neg_args = dict(expect_violation=True, invs="TypeOK UpperVQ")
    neg = {
        "neg_wait_after_pass": pool.submit(mc, ctx, "neg_wait_after_pass", W2, "{1, 2}", "{1, 2}", "{3, 4}", "{0, 1}", "{1, 2, 3}", 8,
                                           mode="after", **neg_args),
        "neg_no_wait": pool.submit(mc, ctx, "neg_no_wait", W2, "{1, 2}", "{1, 2}", "{3, 4}", "{0, 1}", "{1, 2, 3}", 8, mode="none", **neg_args),
        "neg_capacity_too_large": pool.submit(mc, ctx, "neg_capacity_too_large", W2, "{1, 2}", "{1, 2}", "{3, 4}", "{0, 1}", "{1, 2, 3}", 8,
                                              capf=2, **neg_args),
        "neg_lowrate_unrelaxed": pool.submit(mc, ctx, "neg_lowrate_unrelaxed", W2, "{1}", "{1, 2}", "{2, 3}", "{0, 1}", "{1, 3, 5}", 10,
                                             relax=False, **neg_args),
        # the "one bucket per user" assumption: a bucket per session / per user record lets the user have a multiple
        "neg_bucket_per_waiter": pool.submit(mc, ctx, "neg_bucket_per_waiter", W2, "{1, 2}", "{1, 2}", "{3, 4}", "{0, 1}", "{1, 2, 3}", 8,
                                             own_bucket=True, **neg_args),
        # the limiter's critical section: asking Available() and taking in a second step lets racing senders all proceed
        "neg_check_then_take": pool.submit(mc, ctx, "neg_check_then_take", W2, "{1, 2}", "{1, 2}", "{3, 4}", "{0, 1}", "{1, 2, 3}", 8,
                                           check_then_take=True, **neg_args),
        # every frame that leaves takes tokens, also the closing notice / the rest of a write on a session being closed
        "neg_closing_skips_take": pool.submit(mc, ctx, "neg_closing_skips_take", W2, "{1, 2}", "{1, 2}", "{3, 4}", "{0, 1}", "{1, 2, 3}", 8,
                                              closing_skips=True, **neg_args),
        # documents the virtual-clock assumption: a sleeper that wakes late bunches its message with the next ones
        "neg_late_wakeup": pool.submit(mc, ctx, "neg_late_wakeup", W2, "{1, 2}", "{1, 2}", "{3}", "{0}", "{1, 2, 3}", 6, prompt=False, **neg_args),
    }
    return run_impl(ctx, q, pool, pos, neg)


def gen_and_replay(ctx, q):
    """TokenBucketGen behaviours (simulation) replayed on a real ratelimit.Bucket with a scripted clock."""
    num, hl = (150, 12) if q else (2000, 16)
    g = lib.require_ok(lib.run_tlc(ctx, "TokenBucketGen", "TokenBucketGen.cfg",
                                   {"QUANTA": "{1, 2, 3}", "FIS": "{1, 2, 5}", "BURSTS": "{3, 7, 10}", "SIZES": "{1, 2, 4, 9, 12}",
                                    "MAXTIME": 60, "HISTLEN": hl}, workers=1, simulate=num, depth=400, tag="gen_sim"), "TokenBucketGen")
    seen, behaviours = set(), []
    for b in g.behaviours:
        k = json.dumps(b, sort_keys=True)
        if k not in seen:
            seen.add(k)
            behaviours.append(b)
    if not behaviours:
        raise lib.Inconclusive("TokenBucketGen produced no behaviours")
    return behaviours


def tla_set(xs):
    return "{" + ", ".join('"%s"' % x for x in xs) + "}"


def life_run(ctx, tag, hs, closers, recs, gates, dev, invs, export=True, expect_violation=False):
    return lib.run_tlc(ctx, "TokenBucketPanel", "TokenBucketPanel.cfg",
                       {"MAXHS": hs, "NCLOSERS": closers, "MAXREC": recs, "GATES": tla_set(gates), "DEV": tla_set(dev),
                        "EXPORT": "TRUE" if export else "FALSE", "INVS": invs}, workers=2, tag=tag, timeout=1200,
                       expect_violation=expect_violation)


def life_behaviours(ctx, q):
    """Life-cycle schedules of TokenBucketPanel.tla: every maximal behaviour of the model of the tree under test (OneValve is
    checked on all of them by TLC) and, as hypotheses, the behaviours of the StaleCheck deviation that end with two valves."""
    import random
    rng = random.Random(ctx.seed)
    cfgs = [(3, 2, 3, ["closed"])] if q else [(3, 2, 3, ["unlocked", "closed"]), (4, 3, 4, ["closed"])]
    out, stats = [d18_behaviour()], {"model_behaviours": 0, "hypothesis_behaviours": 0}
    code = [k for k, v in CODE_FAITHFUL.items() if v]
    # the literal bound in the (clock-less) panel model: holds in the ideal design, violated by the code-faithful one (D18)
    hs, cl, recs, gates = cfgs[0]
    lib.require_ok(life_run(ctx, "life_ideal", hs, cl, recs, gates, [], "OneValve RateBound", export=False), "TokenBucketPanel ideal (RateBound)")
    if code:
        v = life_run(ctx, "life_code_ratebound", hs, cl, recs, gates, code, "RateBound", export=False, expect_violation=True)
        if v.violated != "RateBound":
            raise lib.Inconclusive("code-faithful panel model (FreshBucketOnReactivation) does not violate RateBound (got %s)" % v.violated)
        stats["ratebound_cex_states"] = len(v.cex)
    for i, (hs, cl, recs, gates) in enumerate(cfgs):
        head = lib.require_ok(life_run(ctx, "life_head_%d" % i, hs, cl, recs, gates, code, "Emit OneValve"), "TokenBucketPanel (OneValve)")
        dev = life_run(ctx, "life_dev_%d" % i, hs, cl, recs, gates, code + ["StaleCheck"], "Emit")
        bad = [b for b in dev.behaviours if b.get("bad")]
        if not dev.ok or not bad or any(b.get("bad") for b in head.behaviours):
            raise lib.Inconclusive("TokenBucketPanel: the StaleCheck deviation must produce schedules that end with two valves "
                                   "and the model of the tree none (got %d / %d)" % (len(bad), sum(1 for b in head.behaviours if b.get("bad"))))
        stats["model_behaviours"] += len(head.behaviours)
        stats["hypothesis_behaviours"] += len(bad)
        hb, bb = list(head.behaviours), list(bad)
        rng.shuffle(hb)
        rng.shuffle(bb)
        # sequential churn (no goroutine ever parked) first, then a seeded sample of the rest
        seq = [b for b in hb if all(s["ev"].get("at", "done") == "done" for s in b["steps"])]
        rest = [b for b in hb if b not in seq]
        nh, nb = (24, 6) if q else (250, 60)
        for b in (seq[:nh // 3] + rest)[:nh]:
            out.append(dict(b, mode="strict", gates=gates))
        for b in bb[:nb]:
            out.append(dict(b, mode="hypo", gates=gates))
    return out, stats


def run_impl(ctx, q, pool, pos, neg):
    f_gen = pool.submit(gen_and_replay, ctx, q)
    f_life = pool.submit(life_behaviours, ctx, q)
    # 3. the real code on the virtual clock: multiplex scenarios, and the server's own wiring of the user's valve
    nfiles = 2 if q else 6
    # (one after the other: lib.make_overlay writes one overlay.json per check)
    life, life_stats = f_life.result()
    life_in = lib.write_lines(os.path.join(ctx.work, "c19_life_behaviours.ndjson"), life)
    us = lib.run_go(ctx, "server", "TestVerifC19User", env={"VERIF_IN": life_in}, timeout=1500)
    f_user = pool.submit(validate, ctx, os.path.join(us["_out_dir"], "trace_user.ndjson"), "trace_user")
    # the same test process also replays the model's Take arithmetic on the library Cloak calls (TokenBucketGen behaviours)
    behaviours = f_gen.result()
    inp = lib.write_lines(os.path.join(ctx.work, "c19_bucket_behaviours.ndjson"), behaviours)
    tr = lib.run_go(ctx, "multiplex", "TestVerifC19Trace", env={"VERIF_C19_FILES": nfiles, "VERIF_IN": inp}, timeout=1500)
    lib.collect_go(ctx, tr)
    lib.collect_go(ctx, us)
    go_keys = sorted({v["key"] for v in tr.get("violations", []) + us.get("violations", []) if v["key"] not in REFILL_KEYS})
    st = tr["stats"]
    ctx.log("harness: %d scenarios, %d tx + %d rx events, %d virtual s; server.ActiveUser: %d scenarios (%d racing, %d overlapped inside "
            "AuthenticateUser, %d with split user records), %d events; violations %s" % (
        st.get("scenarios", 0), st.get("events_tx", 0), st.get("events_rx", 0), st.get("virtual_s", 0),
        us["stats"].get("scenarios", 0), us["stats"].get("racing_scenarios", 0), us["stats"].get("racing_overlapped", 0),
        us["stats"].get("racing_split_records", 0), us["stats"].get("trace_events", 0), go_keys))
    ust = us["stats"]
    ctx.log("life cycle: %d schedules replayed on the real userPanel (%d strict, %d hypotheses: %d followed, %d refuted), %d with a "
            "re-activation, %d diverged" % (ust.get("life_behaviours", 0), ust.get("life_strict", 0), ust.get("life_hypo", 0),
                                            ust.get("life_hypothesis_followed", 0), ust.get("life_hypothesis_refuted", 0),
                                            ust.get("life_reactivated", 0), ust.get("life_diverged", 0)))
    serious = [v for v in us.get("violations", []) if v["key"] not in REFILL_KEYS]
    shown = [k for k in REFILL_KEYS if ust.get("named:%s:%s" % (D18_NAME, k), 0)]
    for smp in us.get("samples", []):
        if smp.get("named_life_scenario") == D18_NAME:
            ctx.log("D18 scenario: %s" % smp["finding"]["what"][-330:])
    if CODE_FAITHFUL["FreshBucketOnReactivation"] and not serious and REFILL_KEYS[0] not in shown:
        raise lib.Inconclusive("FreshBucketOnReactivation (D18) predicts a refill of the burst on every reconnect, the deterministic scenario "
                               "does not show it on this tree - if the panel now keeps a user's buckets, drop the flag in c19.py")
    if ust.get("life_diverged", 0) and not serious:
        raise lib.Inconclusive("TokenBucketPanel.tla and the panel disagree on a life-cycle schedule: %s" % (us.get("notes") or [])[:3])
    if ust.get("life_behaviours", 0) != len(life) and not serious:
        raise lib.Inconclusive("only %s of %d life-cycle schedules were replayed" % (ust.get("life_behaviours"), len(life)))
    if st.get("dead_scenarios", 0) or us["stats"].get("dead_scenarios", 0):
        raise lib.Inconclusive("a scenario moved no data: %s" % tr.get("notes"))
    if st.get("drift", 0) or st.get("bucket_behaviours", 0) != len(behaviours):
        raise lib.Inconclusive("TokenBucket.tla and github.com/juju/ratelimit disagree on Take (%s of %d behaviours replayed): %s" % (
            st.get("bucket_behaviours"), len(behaviours), (tr.get("notes") or [])[:3]))
    ctx.log("bucket replay: %d behaviours x 4 clock concretisations agree with ratelimit.Bucket" % len(behaviours))
    # 4. TLC validates the recorded traces against the bound (every interval, one pass)
    vals = [(os.path.join(us["_out_dir"], "trace_user.ndjson"), f_user)]
    for i in range(nfiles):
        p = os.path.join(tr["_out_dir"], "trace%d.ndjson" % i)
        if os.path.getsize(p) > 0:
            vals.append((p, pool.submit(validate, ctx, p, "trace%d" % i)))
    nev, accepted, tlc_keys, lit_seen = 0, 0, [], set()
    for p, f in vals:
        v = f.result()
        lines = open(p).read().splitlines()
        nev += len(lines)
        nscn = sum(1 for ln in lines if ln.startswith('{"ev":"reset"'))
        for m in re.finditer(r'<<"LITERAL_EXCEEDED", (\d+), (\d+), "(tx|rx)", (\d+), (\d+)>>', v.out):
            scn_, ln, d_, q_, bound_ = int(m.group(1)), int(m.group(2)), m.group(3), int(m.group(4)), int(m.group(5))
            if scn_ > 1000 and d_ + "-tlc" not in lit_seen:
                lit_seen.add(d_ + "-tlc")
                ctx.violations.append({
                    "key": d_ + "-exceeds:burst-refill-on-reactivation",
                    "what": "TLC (TokenBucketTrace): in life-cycle run %d the literal virtual queue of %s reaches %d > %d at event %s while the "
                            "queue that forgives one burst per re-activation stays within the bound" % (
                                scn_, d_, q_, bound_, lines[ln - 1] if 0 < ln <= len(lines) else "?"),
                    "replay": {"life_behaviour": life[scn_ - 1001] if scn_ - 1001 < len(life) else None}})
        if v.ok:
            accepted += nscn
            continue
        if v.violated in ("TUpper", "TNotStarved"):
            last = v.cex[-1] if v.cex else ""
            cur = (cex_field(last, "cur") or '"?"').strip('"')
            scn = cex_field(last, "scn")
            line = int(cex_field(last, "l") or 1) - 1
            ev = lines[line - 1] if 0 < line <= len(lines) else "?"
            key = cur + ("-exceeds" if v.violated == "TUpper" else "-starved")
            if (scn or "").isdigit() and int(scn) >= 1000:
                key += ":across-lifecycle"
            tlc_keys.append(key)
            reset = next((ln for ln in reversed(lines[:max(line, 1)]) if ln.startswith('{"ev":"reset"')), "?")
            ctx.violations.append({
                "key": key,
                "what": "TLC: invariant %s of TokenBucketTrace fails on the recorded execution of scenario %s at event %s "
                        "(q = %s, dpre = %s, parameters %s)" % (v.violated, scn, ev, cex_field(last, "q"), cex_field(last, "dpre"), reset),
                "replay": dict({"life_behaviour": life[int(scn) - 1001]} if (scn or "").isdigit() and 1000 < int(scn) <= 1000 + len(life)
                               else {"user_scenario": {"id": scn}} if p.endswith("trace_user.ndjson") else {"scenario": scenario_of(tr, scn)},
                               scenario_id=scn, tlc_state=last, trace_tail=lines[max(0, line - 12):line])})
        else:
            raise lib.Inconclusive("recorded trace %s is not well-formed for TokenBucketTrace (rejected at line %s): %s" % (
                p, v.rejected_at, lines[v.rejected_at - 1] if v.rejected_at and v.rejected_at <= len(lines) else "?"))
    ctx.log("trace validation: %d events, %d scenarios accepted, TLC keys %s" % (nev, accepted, sorted(set(tlc_keys))))
    if sorted(set(tlc_keys)) != [k for k in go_keys] and (tlc_keys or go_keys):
        ctx.notes.append("the two formulations disagree: driver %s, TLC %s (TLC stops at the first failing scenario of a file; "
                         "tolerances differ by the millisecond rounding)" % (go_keys, sorted(set(tlc_keys))))
    # 5. collect the model runs
    for tag, f in pos.items():
        r = lib.require_ok(f.result(), tag)
        ctx.log("%s: %d distinct states, %.1fs" % (tag, r.distinct, r.wall))
    for tag, f in neg.items():
        r = f.result()
        if r.ok or r.violated != "UpperVQ":
            raise lib.Inconclusive("negative configuration %s was not refuted by TLC (violated=%s): the bound is vacuous" % (tag, r.violated))
        ctx.log("%s: refuted (%s) after %d states" % (tag, r.violated, r.distinct))
    cov = {
        "evaluations": tr["evaluations"] + us["evaluations"],
        "distinct_nontrivial": tr["distinct_nontrivial"] + us["distinct_nontrivial"],
        "rule": "one evaluation = one scenario (rates tx/rx from {2e3,2e4,1e5} B/s, 1-3 sessions x 1-4 connections x 1-3 streams sharing "
                "one valve, write sizes {1,100,1400,16000, 3 frames}, backlogged / bursty / mixed writers, TLS-record or message links, "
                "3 AEADs, 10-40 virtual seconds) run on the real Session/switchboard/ratelimit code in a synctest bubble; every pair of "
                "recorded events is an interval checked by the driver, and TLC checks every interval through the virtual-queue invariant; "
                "plus 4 (thorough: 8) scenarios whose sessions are made by server.userPanel.GetUser / ActiveUser.GetSession, half of them "
                "with the user's first 2-4 connections arriving together (all GetUser calls held inside AuthenticateUser at a barrier "
                "when the tree admits them there together), the bound evaluated over all of the user's sessions; "
                "plus life-cycle schedules generated by TLC from TokenBucketPanel.tla (handshakes, CloseSession calls parked at and "
                "released from the verifhook points, on the real userPanel, every live session backlogged both ways; non-trivial = "
                "at least one CloseSession) with the one-valve identity check at every quiescent point and the literal interval bound "
                "over all sessions (excess explained by fresh buckets on re-activation = known defect D18, own keys), and the "
                "deterministic reconnect-cycle scenario that shows D18 on every run; "
                "non-trivial = the bucket ran dry (more than one burst passed); distinct = distinct scenario parameters. "
                "Also counted: TokenBucketGen behaviours (random walks of the model, 12-16 Takes by 3 waiters) replayed on a real "
                "ratelimit.Bucket with a scripted clock in 4 clock concretisations, non-trivial = at least one Take had to wait",
        "samples": tr["samples"] + us["samples"],
        "traces_validated_against_impl": accepted + len(behaviours),   # accepted counts the life-cycle runs too (one reset each)
        "bucket_behaviours_replayed": len(behaviours),
        "life_cycle": dict(life_stats, replayed=len(life)),
        "trace_events_validated": nev,
        "exhaustive": True,
        "exhaustive_scope": "TokenBucket.tla: all interleavings of Take/Pass/Tick for the swept quanta, fill intervals, bursts, sizes, "
                            "1-%d waiters up to the clock horizon; the recorded scenarios are a sample" % (2 if q else 3),
        "negative_configs_refuted": sorted(neg.keys()),
        "checker_cmd": "tlc TokenBucket.tla (TokenBucket_mc.cfg) / TokenBucketTrace.tla + go test -run TestVerifC19Trace",
        "harness_stats": {"multiplex": st, "server_activeuser": us["stats"]},
    }
    return lib.finish(ctx, LEVEL, cov, ASSUME)


def scenario_of(tr, scn):
    """Parameters of scenario number scn (the driver lists its scenarios in scenarios.json)."""
    try:
        for sc in json.load(open(os.path.join(tr["_out_dir"], "scenarios.json"))):
            if str(sc.get("id")) == str(scn):
                return sc
    except (OSError, ValueError):
        pass
    return {"id": scn}


def replay(ctx, path):
    rf = json.load(open(path))
    if (rf.get("replay") or {}).get("life_behaviour"):
        res = lib.run_go(ctx, "server", "TestVerifC19User", env={"VERIF_REPLAY": os.path.abspath(path)}, extra_args=["-v"])
        print(open(os.path.join(res["_out_dir"], "go.out")).read())
        return 0
    if (rf.get("replay") or {}).get("user_scenario"):
        res = lib.run_go(ctx, "server", "TestVerifC19User", extra_args=["-v"])
        for v in res.get("violations", []):
            print("REPLAY-RESULT key=%r what=%r" % (v["key"], v["what"]))
        if not res.get("violations"):
            print("REPLAY-RESULT keys=[]")
        return 0
    sc = (rf.get("replay") or {}).get("scenario") or {}
    if not sc.get("sessions"):
        print("replay file names scenario %s of seed %s / tier %s only; rerun: VERIF_SEED=%s python3 tools/check.py C19 --tier %s" % (
            sc.get("id"), rf.get("seed"), rf.get("tier"), rf.get("seed"), rf.get("tier")))
        return 2
    res = lib.run_go(ctx, "multiplex", "TestVerifC19Trace", env={"VERIF_REPLAY": os.path.abspath(path)}, extra_args=["-v"])
    print(open(os.path.join(res["_out_dir"], "go.out")).read())
    return 0
