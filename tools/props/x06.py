"""X06 (spec-coverage extra) - where ck-client listens and where it dials, as a function of where each address part was given
(spec/ClientCLI.tla; cmd/ck-client/ck-client.go main()): command line over json over the flag defaults in standalone mode, json
over the SS_* environment in plugin mode, -u over the json UDP field, a missing required part refuses to start. The table's
rows (2 688) are enumerated by TLC; a seed-chosen sample (quick) / all of them (thorough) are judged on the REAL main() in child
processes by the sockets ck-client opens (its listening socket among the child's descriptors; which candidate listener it
dials). C20 judges what the options mean; nothing listed speaks about which source wins."""
import json
import os
import random
import re

import lib

LEVEL = "exploration"
ASSUME = [
    "the documentation of the precedence is the code's own comments and flag help in cmd/ck-client/ck-client.go",
    "sources are told apart by value: loopback aliases 127.0.0.2/3/4 and one free port per source; defaults 127.0.0.1, 1984, 443",
    "Linux: the child reads its own descriptors (SO_TYPE, SO_ACCEPTCONN, getsockname); rows that need port 443 are skipped without privileges",
]
KEYS = {"started-without-address", "refused-complete-address", "listen:precedence", "listen:protocol", "dial:precedence"}
lib.PKG_ALIAS.setdefault("cmd/ck-client", "../cmd/ck-client")


def run(ctx):
    q = ctx.quick()
    g = lib.require_ok(lib.run_tlc(ctx, "ClientCLI", "ClientCLI.cfg", {}, workers=2, tag="table"), "ClientCLI")
    rows = []
    for line in g.out.splitlines():
        m = re.match(r'<<"X06ROW", (".*")>>$', line.strip())
        if m:
            rows.append(json.loads(json.loads(m.group(1))))
    if len(rows) != 2688:
        raise lib.Inconclusive("expected 2688 rows from ClientCLI.tla, got %d" % len(rows))
    rnd = random.Random(ctx.seed)
    rnd.shuffle(rows)
    if q:
        # rows in which two sources compete for at least one part first; a few refusals; cap the default-port rows (they run one at a time)
        contested = [r for r in rows if r["starts"] and any(len(v) > 1 for v in r["has"].values())
                     and r["eff"]["LocalPort"] != "default" and r["eff"]["RemotePort"] != "default"]
        defaults = [r for r in rows if r["starts"] and (r["eff"]["LocalPort"] == "default" or r["eff"]["RemotePort"] == "default")]
        refused = [r for r in rows if not r["starts"]]
        rows = contested[:110] + defaults[:12] + refused[:18]
    inp = lib.write_lines(os.path.join(ctx.work, "x06_rows.ndjson"), rows)
    ctx.log("ClientCLI.tla: 2688 rows (FlagWins, JsonBeatsEnv, NeverGuessed hold); %d judged on the real main()" % len(rows))
    res = lib.run_go(ctx, "cmd/ck-client", "TestVerifX06Main", env={"VERIF_IN": inp}, timeout=3000, tag="main", prefixes=("x06",))
    for v in res.get("violations", []):
        if v.get("key") in KEYS:
            ctx.violations.append(v)
        else:
            raise lib.Inconclusive("driver reported an unknown key %r" % v.get("key"))
    st = res.get("stats", {})
    if not ctx.violations:
        if res.get("_died") or not res.get("complete", False):
            raise lib.Inconclusive("driver died: %s" % res.get("_stdout_tail"))
        if st.get("no-loopback-aliases"):
            raise lib.Inconclusive("loopback aliases 127.0.0.2-4 are not available here")
        if st.get("child_problems", 0) > max(2, len(rows) // 20):
            raise lib.Inconclusive("%d of %d children had problems: %s" % (st.get("child_problems"), len(rows), res.get("notes", [])[:3]))
    ctx.log("main(): %d rows started where the table says, %d refused as the table says, %d skipped (port 443), %d child problems, %d violations" % (
        st.get("rows:started", 0), st.get("rows:refused", 0), st.get("skipped_privileged_port", 0), st.get("child_problems", 0), len(ctx.violations)))
    cov = {
        "evaluations": res.get("evaluations", 0),
        "distinct_nontrivial": res.get("distinct_nontrivial", 0),
        "rule": "rows of ClientCLI.tla (mode x which of flag / json / env supplies each of LocalHost, LocalPort, RemoteHost, RemotePort x -u x json UDP), "
                "seed-chosen sample in the quick tier, all in the thorough tier; non-trivial = two sources compete for at least one part; distinct = distinct rows",
        "samples": res.get("samples", [])[:3],
        "traces_validated_against_impl": res.get("evaluations", 0),
        "exhaustive": not q,
        "rows_total": 2688,
        "rows_started": st.get("rows:started", 0), "rows_refused": st.get("rows:refused", 0),
        "checker_cmd": "tlc ClientCLI.tla; go test -run TestVerifX06Main ./cmd/ck-client/",
    }
    return lib.finish(ctx, LEVEL, cov, ASSUME)


def replay(ctx, path):
    print(open(path).read())
    return 0
