"""C07 - only holders of valid, timely credentials are treated as Cloak clients; admin gate (spec/Handshake*.tla).

1. Handshake.tla (symbolic crypto + attacker) is model-checked with Scope = "sound": every combination of up to
   MaxTamper tamper classes x stamp offsets -W-1..W+1 x user states x method served/unserved x sid 0/non-0 x
   right/wrong server key; invariants Soundness, AdminGate (+ KeyAgreement, Agreement, AdminReach).
   Negative configurations: each deviation flag (inclusive window, no timestamp check, decryption result ignored,
   method check skipped, UID check skipped, admin gate without sid) must break Soundness / AdminGate.
2. HandshakeGen.tla exports the verdict table (must-accept / must-redirect / either-but-same-identity, API reach);
   the Go harness presents real clients and altered real first packets to the real dispatchConnection and
   AuthFirstPacket and judges every observation against the table.
"""
import concurrent.futures
import json
import os
import re

import lib

LEVEL = "exploration"
ASSUME = [
    "X25519 and AES-GCM are trusted: without the keys no other box opens (symbolic crypto in the spec) EXCEPT under the degenerate all-zero secret of the small-order points, which is modelled (tamper class loworder) and constructed (7 encodings x bit 255, both transports); other public keys that give the client's secret (non-canonical u >= 2^255-19 of ordinary points) occur with probability 2^-250 and are not constructed",
    "user histories: a database user authorised at its first connection and revoked since (deleted / expired / UpCredit 0 / DownCredit 0) - or not (control) - reconnects with a NEW session id while its record is cached session-less (closing goroutine parked at hook user.closesession.unlocked) or with the first session still up; revoked => no handshake reply (relay or no answer), control => reply; a connection that joins an EXISTING session id of a cached record is not re-authorised by the code and is not demanded (C16)",
    "the window is read on the sealed whole-second timestamp against State.WorldState.Now: |stamp - now| < 180 s, concretised as 0, +-1 s, +-60 s, +-179 s, +-(180 s - 1 ns) inside; +-180 s (edge); +-(180 s + 1 ns), +-181 s, +-360 s, +-24 h outside",
    "time: the spec's offsets are exact integers in ticks of tolerance/2 (edge classes -3..3, then 1 day, 1 / 100 / 292 / 293 / 300 / 584 years and Big = beyond, both signs); the harness decides inside/outside in exact big.Int nanosecond arithmetic, maps the distance to the class and requires the table to agree; stamps 0, 1, -1, MaxInt64, MinInt64, +-2^62, 2^40, MaxInt32, MaxUint32, now +- 2^63 ns +- 1 s and random 64-bit values are sealed by the real client (its clock set to exactly that second)",
    "server configuration: probes of the configured set run against servers built by ParseConfig/InitState from a JSON file, with / without AdminUID x 0 / 1 / 3 BypassUID entries (16-byte entries); probe UIDs: 16 x 0x00, 16 x 0xff, a bypass UID, the admin UID, three one-byte variants of a bypass UID, an unlisted random UID; authorised without a database = the configured set exactly",
    "session state at arrival: fresh / a live session of the same (UID, session id) (opened by a real client with a served method; the packet then JOINS) / a live session of the same UID with another id; every class the statement excludes (unserved method, wrong key, stamp on or outside the edge, every tamper class, forgery) must be refused in all three. A revoked user's join of its own live session is served from the cached record and is tolerated until the usage-upload round that follows the revocation (spec: Soundness has 'Authorised or (cache = same and no tick yet)'); after one round (panel.updateUsageQueue + commitUpdate with the user idle) both the same and a new session id must be refused",
    "user states are seeded in a real bolt database (ok, UpCredit 0, DownCredit 0, expired 1000 s ago, expired in 1970, absent) or the bypass / admin configuration; a user that is already active is not re-authenticated (C16's subject): every presentation starts from a panel without that user's session unless a previous dispatch goroutine never returned (purged)",
    "an admin session (admin UID, session id 0) carries no proxy traffic: the 'method it serves' clause is applied to proxy sessions only (dispatcher.go tests the admin gate before the ProxyBook); the occurrences are counted in harness_stats obs:admin_api_with_unserved_method and become a violation with VERIF_C07_STRICT_ADMIN_METHOD=1",
    "changes outside the sealed block and outside the 255 significant bits of the random (SNI, other extensions, length/type fields, other HTTP headers, invalid base64) may be accepted or redirected; if accepted the identity must be the sealed one; replays of such copies are C08's subject, byte-exact relaying C09's",
    "a packet whose own framing announces more bytes than it has is completed by the harness (zero padding up to the TLS record length / an empty line) so that the server's 15 s first-read timer is not part of a case",
]

SOUND_DEVS = ["WindowInclusive", "NoTimestampCheck", "IgnoreDecryptError", "SkipMethodCheck", "SkipUidCheck", "AdminNoSid",
              "LowOrderAccepted", "SkipRecheckSessionless", "SkewSubSaturates", "ZeroUidBypassNoAdmin",
              "MethodCheckOnOpenOnly", "IdleSkippedInUpload"]
JVM = {"JAVA_TOOL_OPTIONS": "-Xss64m -XX:ParallelGCThreads=2 -XX:TieredStopAtLevel=1"}
INV = "Agreement KeyAgreement Soundness AdminGate AdminReach"


def _sub(scope, maxt, dev="{{}}", inv=INV, w=2):
    return {"W": w, "MAXT": maxt, "SCOPE": scope, "DEV": dev, "INV": inv}


def neg_matrix(ctx, flags):
    """One TLC run in which every behaviour carries one deviation flag; returns {flag: set(invariants it breaks)}."""
    dev = "{" + ",".join('{"%s"}' % f for f in flags) + "}"
    r = lib.run_tlc(ctx, "HandshakeNeg", "HandshakeNeg.cfg", _sub("neg7", 1, dev), tag="neg_matrix", workers=1, timeout=900, env=JVM)
    lib.require_ok(r, "neg_matrix")
    m = re.search(r'<<"NEGMATRIX", (".*")>>', r.out)
    if not m:
        raise lib.Inconclusive("HandshakeNeg printed no matrix")
    doc = json.loads(lib._unq(m.group(1)))
    out = {}
    for i, f in enumerate(doc["flags"]):
        out[f] = {doc["invs"][j] for j, v in enumerate(doc["matrix"][i]) if v == 1}
    return r, out


def run(ctx):
    q = ctx.quick()
    pool = concurrent.futures.ThreadPoolExecutor(max_workers=10)
    jobs = {}
    maxt = 1 if q else 3
    jobs["gen_sound"] = pool.submit(lib.run_tlc, ctx, "HandshakeGen", "HandshakeGen.cfg", _sub("sound", maxt), tag="gen_sound",
                                    workers=4, timeout=900, env=JVM)
    if not q:
        jobs["mc_sound_w3"] = pool.submit(lib.run_tlc, ctx, "Handshake", "Handshake_mc.cfg", _sub("sound", 2, w=3),
                                          tag="mc_sound_w3", workers=4, timeout=900, env=JVM)
        jobs["mc_neg_space"] = pool.submit(lib.run_tlc, ctx, "Handshake", "Handshake_mc.cfg", _sub("neg", 7),
                                           tag="mc_neg_space_all_tampers", workers=4, timeout=900, env=JVM)
    negf = pool.submit(neg_matrix, ctx, SOUND_DEVS)
    # `go test` is started now: compiling and linking the harness overlap with TLC; the test waits for <inp>.ready
    inp = os.path.join(ctx.work, "c07_table.ndjson")
    gof = pool.submit(lambda: lib.run_go(ctx, "server", "TestVerifC07Replay", env={"VERIF_IN": inp, "VERIF_IN_WAIT": "1", "GOGC": "400"},
                                         timeout=3000, prefixes=("c06", "c07", "shared")))
    try:
        res = {k: f.result() for k, f in jobs.items()}
        negr, broken = negf.result()
        for d in SOUND_DEVS:
            want = "AdminGate" if d == "AdminNoSid" else "Soundness"
            if want not in broken.get(d, set()):
                raise lib.Inconclusive("deviation %s does not break %s in the model (breaks %s): the invariant would be vacuous" % (d, want, broken.get(d)))
        ctx.log("vacuity: %s (%d states, %.1fs)" % ({d: sorted(broken[d]) for d in SOUND_DEVS}, negr.distinct, negr.wall))
        for name, r in res.items():
            lib.require_ok(r, name)
            ctx.log("%s: Soundness, AdminGate, KeyAgreement hold, %d distinct states (%.1fs)" % (name, r.distinct, r.wall))
        table = res["gen_sound"].behaviours
        by = {}
        for b in table:
            by[b["verdict"]] = by.get(b["verdict"], 0) + 1
        ctx.log("verdict table: %d abstract cases %s" % (len(table), by))
        if len(by) != 3:
            raise lib.Inconclusive("the verdict table must contain all three classes: %s" % by)
        if os.environ.get("VERIF_C07_CORRUPT"):  # self-test of the binding: a corrupted expectation must show up
            for b in table:
                if b["tampers"] == ["other"] and b["verdict"] == "either-but-same-identity":
                    b["verdict"] = "must-redirect"
        lib.write_lines(inp, table)
        open(inp + ".ready", "w").write("go")
    except BaseException:
        open(inp + ".ready", "w").write("abort")
        raise
    finally:
        pool.shutdown(wait=False)
    g = gof.result()
    lib.collect_go(ctx, g)
    # identities under concurrency: authorised and unauthorised first packets together, the dispatching goroutine descheduled
    # between authenticating the packet and looking the user up (Handshake.tla judges every packet by its own sealed UID)
    cc = lib.run_go(ctx, "server", "TestVerifC07Concurrent", timeout=900, tag="concurrent", prefixes=("c06", "c07", "shared"))
    lib.collect_go(ctx, cc)
    if cc["stats"].get("authorised_not_served", 0):
        raise lib.Inconclusive("concurrent stage: authorised connections were not served: %s" % cc.get("notes", [])[:3])
    ctx.log("concurrent identities: %d unauthorised + %d authorised first packets in %d rounds, %d violations" % (
        cc["stats"].get("conc_bad", 0), cc["stats"].get("conc_good", 0), cc["evaluations"], len(cc.get("violations", []))))
    gs = g["stats"]
    ctx.log("replay: %d real clients, %d single-bit flips, %d multi-byte edits, %d environment presentations on %d base packets; %.1fs" % (
        sum(v for k, v in gs.items() if k.startswith("clients:")), gs.get("single_bit_flips", 0), gs.get("multi_byte_edits", 0),
        gs.get("environment_presentations", 0), gs.get("base_packets", 0), gs.get("replay_wall_ms", 0) / 1000.0))
    ctx.log("session state at arrival: %d presentations %s" % (gs.get("live_session_presentations", 0),
                                                                {k[13:]: v for k, v in sorted(gs.items()) if k.startswith("live_outcome:")}))
    ctx.log("far-away stamps: %d presentations; server configurations: %s" % (
        gs.get("far_stamp_presentations", 0), {k[21:]: v for k, v in sorted(gs.items()) if k.startswith("configuration_probes:")}))
    ctx.log("small-order forgeries: %d; histories: %s" % (gs.get("small_order_forgeries", 0),
                                                          {k[16:]: v for k, v in sorted(gs.items()) if k.startswith("history_outcome:")}))
    ctx.log("outcomes: %s" % {k: v for k, v in sorted(gs.items()) if k.startswith("outcome:") or k.startswith("client_outcome:")})
    ctx.log("lenient classes accepted: %s; admin API reached %d times (with unserved method: %d); stuck dispatch: %s" % (
        {k[17:]: v for k, v in sorted(gs.items()) if k.startswith("lenient_accepted:")}, gs.get("admin_api_reached", 0),
        gs.get("obs:admin_api_with_unserved_method", 0), {k: v for k, v in gs.items() if k.startswith("dispatch_stuck")}))
    for n in g.get("notes", []):
        ctx.notes.append(n)
    drift = {k: v for k, v in gs.items() if k.startswith("drift:")}
    if gs.get("missing_abstract_case", 0) or gs.get("harness_errors", 0):
        raise lib.Inconclusive("harness: %d concrete cases without an abstract case, %d harness errors: %s" % (
            gs.get("missing_abstract_case", 0), gs.get("harness_errors", 0), g.get("notes")))
    if drift and not ctx.violations:
        # the code refused something the table says must be accepted (or neither relayed nor answered): not a
        # violation of a soundness statement, but the model no longer describes this tree
        raise lib.Inconclusive("model drift: %s; %s" % (drift, g.get("notes")))
    if drift:
        ctx.notes.append("table/code disagreements that are not violations: %s" % drift)
    cov = {
        "evaluations": g["evaluations"],
        "distinct_nontrivial": g["distinct_nontrivial"],
        "rule": "abstract cases = every wire state of Handshake (Scope=sound): {direct, cdn} x subsets of <= %d of the 8 tamper classes per transport "
                "(randsig, nonce, bit255, blockA, blockB, other, loworder, len|b64) x stamp offset -3..3 ticks (W=2) x user state {bypass, admin, dbok, nocredit, expired, unknown} "
                "x method {served, unserved} x sid {0, non-0} x server key {right, wrong}, plus user histories {still ok, nocredit, expired, deleted} x cached record {session-less, busy}; concrete: (C) every history x "
                "4 transport/signature combinations as gate scenarios on the real panel, (B1/B2 also) forged packets for all 7 small-order points x bit 255 sealed under the zero secret,  (A) every untampered case as real clients (3 signatures, %s draws), "
                "(B1) per transport/signature %s: every bit of record/handshake header, version, random, session id, key share (+headers), extensions length resp. "
                "hidden name/value, request line, terminator%s, + %s random multi-byte edits; (B2) every untampered environment x every offset class x "
                "(no edit, %s per class%s); non-trivial = tampered or excluded by the statement; distinct = distinct abstract cases hit" % (
                    maxt, "2" if q else "7", "1 hello" if q else "3 hellos", " + 400 random other bits" if q else " = every bit of the packet", "300" if q else "3000",
                    "one bit" if q else "three bits", "" if q else ", one pair per two classes"),
        "samples": g["samples"],
        "traces_validated_against_impl": int(g["distinct_nontrivial"]),
        "abstract_cases_in_table": len(table),
        "verdict_classes": by,
        "exhaustive": True,
        "checker_cmd": "tlc Handshake.tla / HandshakeNeg.tla (12 deviation flags) / HandshakeGen.tla (Scope=sound) + go test -run TestVerifC07Replay",
        "harness_stats": gs,
    }
    return lib.finish(ctx, LEVEL, cov, ASSUME)


def replay(ctx, path):
    r = lib.run_tlc(ctx, "HandshakeGen", "HandshakeGen.cfg", _sub("sound", 3), tag="gen_sound", workers=4, timeout=900, env=JVM)
    inp = lib.write_lines(os.path.join(ctx.work, "c07_table.ndjson"), r.behaviours)
    res = lib.run_go(ctx, "server", "TestVerifC07Replay", env={"VERIF_REPLAY": os.path.abspath(path), "VERIF_IN": inp},
                     extra_args=["-v"], prefixes=("c06", "c07", "shared"))
    print(open(os.path.join(res["_out_dir"], "go.out")).read())
    return 0
