"""C05 - record framing survives any TCP segmentation and concurrent writers (spec/RecordLayer*.tla)."""
import os
from concurrent.futures import ThreadPoolExecutor

import lib

LEVEL = "model_checking"
ASSUME = [
    "the underlying net.Conn is a reliable ordered byte stream whose Write calls are atomic with respect to each other "
    "(Go's net.TCPConn holds the fd write lock for a whole Write; the segmenting in-memory conn appends under one lock)",
    "each underlying Read may return any non-empty prefix of what is in flight, at most what was asked for; "
    "it never returns (0, nil)",
    "one reader goroutine per connection (switchboard.deplex); the property is about concurrent WRITERS",
    "after a Read error the connection is not read again (deplex closes it): TLSConn does not resynchronise",
    "records above 16640 bytes cannot be produced by TLSConn.Write (it refuses them, allowed by the statement); "
    "they are injected as raw records, as a foreign peer could send them",
    "a failed underlying Write reports how many bytes the transport took; after a failure with 0 bytes the connection "
    "stays in use, after a partial one the caller closes it (switchboard does on any write error)",
    "gorilla/websocket v1.5.3 frame codec, sync.Mutex/sync.Cond and io.ReadFull are trusted",
]

ALL_INVS = "TypeOK Whole OversizeErr InOrderWhole ErrIsFinal PerWriterOrder NoInterleave Complete NoGhost NoTorn Fits"
MC_BASE = {"H": 5, "BUF": 3, "LENS": "{0,1,2,3,4}", "NW": 2, "MAXREC": 3, "WMODE": "atomic", "RMODE": "full", "INVS": ALL_INVS,
           "MAXFAIL": 0, "FMTMAX": 99, "WLIMIT": 99}


# several small TLC runs go on at once: keep each JVM's GC thread pool small
JVM = {"JAVA_TOOL_OPTIONS": "-Xss64m -XX:ParallelGCThreads=2"}
JVM_DFS = {"JAVA_TOOL_OPTIONS": "-Xss64m -XX:ParallelGCThreads=2 -Dtlc2.tool.queue.IStateQueue=StateDeque"}


def mc(ctx, tag, workers, **kw):
    sub = dict(MC_BASE)
    sub.update(kw)
    return lib.run_tlc(ctx, "RecordLayer", "RecordLayer_mc.cfg", sub, tag="mc_" + tag, workers=workers,
                       expect_violation=True, timeout=1500, env=JVM)


def gen(ctx, tag, workers, simulate=None, depth=None, **kw):
    sub = {"H": 2, "BUF": 2, "LENS": "{0,1,2,3}", "NW": 1, "MAXREC": 2, "MAXFAIL": 0, "FMTMAX": 99, "WLIMIT": 99}
    sub.update(kw)
    return lib.run_tlc(ctx, "RecordLayerGen", "RecordLayerGen.cfg", sub, tag="gen_" + tag,
                       workers=1 if simulate else workers, simulate=simulate, depth=depth, timeout=1500, env=JVM)


def split_trace(lines, parts):
    """[(from, to)] line ranges cut at connection boundaries (Reset events), roughly equal."""
    starts = [i for i, l in enumerate(lines) if '"ev":"Reset"' in l]
    target = max(1, len(lines) // parts)
    out, cur = [], 0
    for st in starts[1:]:
        if st - cur >= target and len(out) < parts - 1:
            out.append((cur, st))
            cur = st
    out.append((cur, len(lines)))
    return out


def run(ctx):
    q = ctx.quick()
    pool = ThreadPoolExecutor(max_workers=8)
    wk = max(2, lib.NCPU // 4)

    # 1. behaviours (submitted first: the replay waits for them): every maximal path of RecordLayerGen for small constants (every chunking x every
    #    placement of the writes), plus simulated long ones with the real header length
    gens = [
        ("h2", dict(H=2, BUF=2, LENS="{0,1,2,3}", MAXREC=2)),
        ("h3", dict(H=3, BUF=2, LENS="{0,2,3}", MAXREC=2)),
        ("h5", dict(H=5, BUF=1, LENS="{0,1,2}", MAXREC=2)),
    ]
    if q:
        # 3 records, at most one failing Write (WriteFail: the transport times the Write out after 0 or more bytes);
        # MaxFail = 1 includes every failure-free behaviour of the same constants
        gens.append(("f3", dict(H=2, BUF=2, LENS="{1,3}", MAXREC=3, MAXFAIL=1)))
    else:
        gens.append(("f3", dict(H=2, BUF=2, LENS="{0,1,3}", MAXREC=3, MAXFAIL=1)))
        gens.append(("f5", dict(H=5, BUF=1, LENS="{1,2}", MAXREC=2, MAXFAIL=1)))
        gens.append(("w2", dict(H=2, BUF=2, LENS="{0,1,3}", MAXREC=2, NW=2)))
        gens.append(("r3", dict(H=2, BUF=2, LENS="{0,1,2,3}", MAXREC=3)))
        gens.append(("h5b", dict(H=5, BUF=2, LENS="{0,2,3}", MAXREC=2)))
    sims = [("s6", 400, dict(H=5, BUF=3, LENS="{0,1,2,3,4}", MAXREC=6))]
    if not q:
        sims = [("s5", 4000, dict(H=5, BUF=3, LENS="{0,1,2,3,4}", MAXREC=5)),
                ("s9", 1500, dict(H=5, BUF=3, LENS="{0,1,2,3}", MAXREC=9))]
    f_gen = [(tag, pool.submit(gen, ctx, tag, wk, **kw)) for tag, kw in gens]
    f_gen += [(tag, pool.submit(gen, ctx, tag, 1, simulate=num, depth=200, **kw)) for tag, num, kw in sims]

    # 2. the design and its deviation candidates, exhaustively (<= 3 records, lengths 0..3 + one oversize,
    #    every chunking, 2 writers)
    big = {} if q else {"MAXREC": 4}
    f_pos = {"atomic": pool.submit(mc, ctx, "atomic", wk if q else 2 * wk, **big)}
    if q:  # the mutex-protected two-write design (WebSocketConn.writeM around gorilla's multi-Write messages)
        f_pos["splitLocked"] = pool.submit(mc, ctx, "splitLocked", wk, WMODE="splitLocked", H=3, BUF=2, LENS="{0,1,2,3}")
    else:
        f_pos["splitLocked"] = pool.submit(mc, ctx, "splitLocked", wk, WMODE="splitLocked")
        f_pos["split_1writer"] = pool.submit(mc, ctx, "split_1writer", 2, WMODE="split", NW=1)
    f_neg = {  # name -> (future, invariant TLC must refute): proves the invariants are not vacuous
        "split": (pool.submit(mc, ctx, "neg_split", 2, WMODE="split", INVS="NoInterleave"), "NoInterleave"),
        "single": (pool.submit(mc, ctx, "neg_single", 2, RMODE="single", NW=1, INVS="Whole"), "Whole"),
        "trunc": (pool.submit(mc, ctx, "neg_trunc", 2, RMODE="trunc", NW=1, INVS="OversizeErr"), "OversizeErr"),
    }
    # failing / refused Writes: zero-byte failures leave the stream intact, a torn record ends it, Write accepts only
    # what fits the length field (FmtMax = WLimit = 4 here, lengths up to 5 offered) ...
    f_pos["faults"] = pool.submit(mc, ctx, "faults", wk, H=2, BUF=3, LENS="{0,1,3,4,5}", NW=1 if q else 2, MAXREC=3,
                                  MAXFAIL=1 if q else 2, FMTMAX=4, WLIMIT=4)
    # ... and the deviation candidates: failed record left in the pooled write buffer; size guard one above the format
    f_neg["staleBuf"] = (pool.submit(mc, ctx, "neg_staleBuf", 2, WMODE="staleBuf", H=5, LENS="{0,2}", NW=1, MAXFAIL=1,
                                     INVS="NoGhost"), "NoGhost")
    f_neg["limit"] = (pool.submit(mc, ctx, "neg_limit", 2, H=2, BUF=5, LENS="{0,3,4,5}", NW=1, MAXREC=2, FMTMAX=3, WLIMIT=4,
                                  INVS="Whole"), "Whole")
    if not q:
        f_neg["split_reader"] = (pool.submit(mc, ctx, "neg_split_reader", 2, WMODE="split", INVS="Whole"), "Whole")
    # 3. while TLC works: concretisation sweeps and concurrent-writer recordings on the real code
    live = lib.run_go(ctx, "common", "TestVerifC05Live", timeout=1500)
    lib.collect_go(ctx, live)
    conc = live
    tpath = os.path.join(conc["_out_dir"], "trace.ndjson")
    tlines = open(tpath).read().splitlines()
    nev = len(tlines)
    f_trace = []  # (first line index, future): connections are independent, so the recording is validated in parallel parts
    for ci, (a, b) in enumerate(split_trace(tlines, 1 if q else 8)):
        part = os.path.join(ctx.work, "c05_trace_%d.ndjson" % ci)
        with open(part, "w") as fh:
            fh.write("\n".join(tlines[a:b]) + "\n")
        f_trace.append((a, pool.submit(lib.run_tlc, ctx, "RecordLayerTrace", "RecordLayerTrace.cfg", {"NW": 32}, workers=1,
                                       env=dict(JVM_DFS, VERIF_TRACE=part), expect_violation=True, tag="trace_%d" % ci,
                                       dfs=True, timeout=1500)))

    behaviours = []
    for tag, f in f_gen:
        g = lib.require_ok(f.result(), "RecordLayerGen " + tag)
        behaviours += g.behaviours
        ctx.log("gen %s: %d behaviours (%d states)" % (tag, len(g.behaviours), g.distinct))
    if not behaviours:
        raise lib.Inconclusive("TLC produced no behaviours")
    inp = lib.write_lines(os.path.join(ctx.work, "c05_behaviours.ndjson"), behaviours)
    env = {"VERIF_IN": inp}
    if os.environ.get("VERIF_C05_CORRUPT"):
        env["VERIF_C05_CORRUPT"] = "1"
    rep = lib.run_go(ctx, "common", "TestVerifC05Replay", env=env, timeout=1500)
    lib.collect_go(ctx, rep)

    for name, f in f_pos.items():
        r = lib.require_ok(f.result(), "RecordLayer " + name)
        ctx.log("model check %s: %d distinct states" % (name, r.distinct))
    for name, (f, inv) in f_neg.items():
        r = f.result()
        if r.ok or r.violated != inv:
            raise lib.Inconclusive("deviation candidate %s: TLC was expected to refute %s but reports %s - "
                                   "the invariant is vacuous or the model drifted" % (name, inv, r.violated))
        ctx.log("deviation %s: %s refuted after %d states (as required)" % (name, inv, r.distinct))

    for r in (live, rep):
        st = r["stats"]
        if st.get("model_drift") or st.get("harness_stuck") or st.get("ws_setup_failed"):
            raise lib.Inconclusive("harness trouble (not a verdict): %s %s" % (
                {k: st[k] for k in ("model_drift", "harness_stuck", "ws_setup_failed") if k in st}, r.get("notes")))
    if conc["stats"].get("tcp_skipped"):
        ctx.notes.append("loopback TCP unavailable: tls-tcp recordings skipped")

    traces_ok = int(live["stats"].get("conc_runs", 0))
    tstates = 0
    for off, f in f_trace:
        v = f.result()
        tstates += v.distinct
        if v.ok:
            continue
        traces_ok = 0
        if v.violated == "postcondition" or v.rejected_at:
            line = off + (v.rejected_at or 1)  # 1-based line of the whole recording
            ev = tlines[line - 1] if line <= nev else "?"
            reset = "?"
            for x in reversed(tlines[:line]):
                if '"ev":"Reset"' in x:
                    reset = x
                    break
            ctx.violations.append({"key": "trace-rejected",
                                   "what": "recorded execution is not a behaviour of RecordLayer: event %s at line %s of connection %s "
                                           "cannot be explained" % (ev, line, reset),
                                   "replay": {"kind": "trace", "connection": reset, "trace_tail": tlines[max(0, line - 15):line]}})
        elif v.violated:
            ctx.violations.append({"key": "trace-invariant:" + str(v.violated),
                                   "what": "invariant %s fails on a recorded execution" % v.violated,
                                   "replay": {"kind": "trace", "cex": v.cex[-2:]}})
        else:
            raise lib.Inconclusive("TLC failed on the recorded trace:\n" + "\n".join(v.out.splitlines()[-20:]))
    ctx.log("trace: %d events in %d parts, accepted=%s (%d states)" % (nev, len(f_trace), traces_ok > 0, tstates))
    pool.shutdown()
    # run_tlc was called from several threads: recompute the totals from the (atomically appended) run list
    ctx.tlc_states = sum(r["distinct"] for r in ctx.tlc_runs)
    ctx.tlc_transitions = sum(r["generated"] for r in ctx.tlc_runs)

    cov = {
        "evaluations": rep["evaluations"] + live["evaluations"],
        "distinct_nontrivial": rep["distinct_nontrivial"] + live["distinct_nontrivial"],
        "rule": "replay: every maximal path of RecordLayerGen (all chunkings x all placements of the writes; H in {2,3,5}, "
                "<=3 records, lengths 0..Buf+1) plus TLC -simulate paths with H=5 and up to 9 records, each under %d "
                "concretisations (grouping of the 5 real header bytes and of the real body into model bytes, real lengths up to "
                "65535, real buffer incl. the multiplexer's); non-trivial = some record arrives in more pieces than one header "
                "and one body chunk. sweep: every exchange over the length alphabet with total <= 64 bytes x every single cut and "
                "every pair of cuts (TLSConn; WebSocketConn both directions on a per-seed third of the exchanges), long exchanges "
                "{16384,16401,16640,buf-1,buf,buf+1} x {coalesced, 1-byte drip, seeded segment sizes, boundary-hugging cuts, seeded "
                "multi-cuts}; non-trivial = a cut falls inside a record. conc: k in {2,8,32} writers x {seg conn, loopback TCP, "
                "WebSocket c2s/s2c} x {fitting, oversize} buffers + parked-writer schedules. fault: every sequence of <=3 (thorough 4) "
                "Writes over {ok 5, ok 300, timed-out 7, timed-out 1000} with at least one time-out, each also followed by a torn "
                "record, over the segmenting conn (recorded, TLC-validated) and net.Pipe (SetWriteDeadline). boundary: Write lengths "
                "2^k-1, 2^k, 2^k+1 (k<=17), 16639..16641, 65534..65537, 70000, 131072, 2^18 each followed by a sentinel record x 3 "
                "segmentations; accepted => delivered whole. distinct = distinct case signature"
                % (2 if q else 4),
        "samples": rep["samples"] + live["samples"],
        "traces_validated_against_impl": len(behaviours) + traces_ok,
        "behaviours_replayed": len(behaviours),
        "trace_events_validated": nev,
        "concurrent_runs_recorded": int(live["stats"].get("conc_runs", 0)),
        "negative_configs_refuted": sorted(f_neg),
        "exhaustive": True,
        "checker_cmd": "tlc RecordLayer.tla (atomic, splitLocked, faults, split x1 writer; negative: split, single, trunc, staleBuf, limit) / "
                       "RecordLayerGen.tla / RecordLayerTrace.tla + go test -run 'TestVerifC05(Live|Replay)' ./internal/common/",
        "harness_stats": {"replay": rep["stats"], "live": live["stats"]},
    }
    return lib.finish(ctx, LEVEL, cov, ASSUME)


def replay(ctx, path):
    import json
    kind = (json.load(open(path)).get("replay") or {}).get("kind")
    test = {"behaviour": "TestVerifC05Replay", "sweep": "TestVerifC05Sweep", "conc": "TestVerifC05Conc",
            "fault": "TestVerifC05Fault", "boundary": "TestVerifC05Fault"}.get(kind)
    if test is None:
        print("replay file of kind %r: a rejected trace is re-examined by re-running the check with the recorded seed "
              "(VERIF_SEED=<seed> python3 tools/check.py C05 --tier <tier>); the tail of the trace is in the file" % kind)
        return 0
    res = lib.run_go(ctx, "common", test, env={"VERIF_REPLAY": os.path.abspath(path)}, extra_args=["-v"])
    print(open(os.path.join(res["_out_dir"], "go.out")).read())
    return 0
