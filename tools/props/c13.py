"""C13 - each stream's frames carry unique, gap-free sequence numbers in write order (Mux.tla send side,
MuxWireTrace.tla on decoded wire taps, gate at stream.send.encoded)."""
import os
import lib
from props import muxcommon as mx, muxprop

LEVEL = "model_checking"
ASSUME = [
    "the wire tap sees records in the order of conn.Write calls, which happen inside the sender's critical section",
    "frames are decoded in-package with the session's own Obfuscator (C04 decides that codec against an independent one)",
    "exhaustive model check for <= 2 streams x writes of <= 2 frames x close; larger instances only through recorded traces",
]
KEYS = {"seq-duplicate", "seq-gap", "seq-order", "close-not-last", "wire-undecodable", "trace-rejected", "write-interleaved", "close-frame-missing", "close-sweep-write"}
RULE = ("(a) MuxGen behaviours with multi-frame writes and closes replayed on a real Session pair, every record decoded at the wire; "
        "(b) gate scenarios: each ordered pair of {Write, ReadFrom, Close} with the first sender parked between encode and Seq++; "
        "(c) stress rounds (1-8 connections, 1-4 streams, 2-4 concurrent writers per stream mixing Write/ReadFrom/Close, optional "
        "connection failure) whose wire trace is validated by TLC; (d) close sweep: thousands of open/write/close rounds (closed by either side, 0-2 writes) with the closing frame and its number checked on the wire; (e) open race (StreamOpen.tla): 2-32 goroutines calling OpenStream at once, ids and (id, seq) pairs on the wire pairwise distinct; non-trivial = concurrent senders on one stream or a multi-frame write")


def extra(ctx):
    g = lib.run_go(ctx, "multiplex", "TestVerifC13Gate", timeout=600)
    lib.collect_go(ctx, g)
    ctx.log("gate: %d rounds, second sender reached the gate in %d" % (
        g["stats"].get("gate_rounds", 0), g["stats"].get("second_sender_reached_gate", 0)))
    s = lib.run_go(ctx, "multiplex", "TestVerifC13Stress", timeout=900)
    lib.collect_go(ctx, s)
    tpath = os.path.join(s["_out_dir"], "trace.ndjson")
    lines = open(tpath).read().splitlines()
    v = lib.run_tlc(ctx, "MuxWireTrace", "MuxWireTrace.cfg", workers=1, env={"VERIF_TRACE": tpath},
                    expect_violation=True, tag="wiretrace", timeout=900)
    ok = v.ok
    if not v.ok:
        ln = v.rejected_at or 1
        ctx.violations.append({"key": "trace-rejected",
                               "what": "recorded wire trace is not a behaviour of the send side of Mux: event %s (line %d) cannot be explained"
                                       % (lines[ln - 1] if ln <= len(lines) else "?", ln),
                               "replay": {"trace_tail": lines[max(0, ln - 15):ln]}})
    ctx.log("stress: %d wire frames, trace accepted=%s" % (s["stats"].get("wire_frames", 0), ok))
    cs = lib.run_go(ctx, "multiplex", "TestVerifC13CloseSweep", timeout=900, tag="close_sweep")
    lib.collect_go(ctx, cs)
    ctx.log("close sweep: %d closes on healthy sessions, each with its closing frame decoded from the wire" % cs["stats"].get("closes", 0))
    cb = lib.run_go(ctx, "multiplex", "TestVerifC13CloseBulk", timeout=1200, tag="close_bulk")
    lib.collect_go(ctx, cb)
    ctx.log("close bulk: %d closes of fresh streams (0-4 writes each), every one must hand its closing frame to the connection" % cb["stats"].get("bulk_closes", 0))
    lf = lib.run_go(ctx, "multiplex", "TestVerifC13LateFrame", timeout=600, tag="late_frame")
    lib.collect_go(ctx, lf)
    ctx.log("late frames for closed streams: %d scenarios, %d violations" % (lf["evaluations"], len(lf.get("violations", []))))
    # stream-id allocation (spec/StreamOpen.tla): the code's fetch-and-add keeps NonceInv / DistinctIds, load-then-add breaks them
    so = lib.require_ok(lib.run_tlc(ctx, "StreamOpen", "StreamOpen_mc.cfg", {"DEV": "", "INVS": "NonceInv DistinctIds"}, tag="streamopen", workers=2), "StreamOpen")
    for inv in ("NonceInv", "DistinctIds"):
        neg = lib.run_tlc(ctx, "StreamOpen", "StreamOpen_mc.cfg", {"DEV": '"LoadThenAdd"', "INVS": inv}, tag="streamopen_neg_" + inv, workers=2, expect_violation=True)
        if neg.ok or neg.violated != inv:
            raise lib.Inconclusive("StreamOpen with LoadThenAdd should violate %s (got %s)" % (inv, neg.violated))
    orc = lib.run_go(ctx, "multiplex", "TestVerifC13OpenRace", timeout=900, tag="open_race")
    lib.collect_go(ctx, orc)
    ctx.log("open race: StreamOpen.tla %d states; %d rounds, %d streams opened by 2-32 goroutines at once, %d violations" % (
        so.distinct, orc["stats"].get("open_race_rounds", 0), orc["stats"].get("streams_opened", 0), len(orc.get("violations", []))))
    return {"evaluations": g["evaluations"] + s["evaluations"] + cs["evaluations"] + lf["evaluations"] + orc["evaluations"], "open_race_streams": orc["stats"].get("streams_opened", 0), "close_sweep_closes": cs["stats"].get("closes", 0), "close_bulk_closes": cb["stats"].get("bulk_closes", 0), "distinct_nontrivial": g["distinct_nontrivial"] + s["distinct_nontrivial"],
            "samples": g["samples"][:1] + s["samples"][:1], "traces": s["evaluations"] if ok else 0,
            "wire_frames_validated": s["stats"].get("wire_frames", 0), "gate_rounds": g["stats"].get("gate_rounds", 0),
            "gate_second_sender_reached": g["stats"].get("second_sender_reached_gate", 0)}


def run(ctx):
    q = ctx.quick()
    C = mx.cfg
    r = lib.require_ok(lib.run_tlc(ctx, "Mux", "Mux_seq.cfg", {"NC": 2, "NS": 1, "UNITS": 2 if q else 3, "MAXWRITE": 2 if q else 3,
                                                                "FEAT": '"swrite","close"'}, tag="mc_seq", timeout=1800), "Mux SeqStep")
    ctx.log("mc SeqStep/NonceInv: %d distinct" % r.distinct)
    gens = [("seq_bfs", C(nc=2, ns=1, units=2, maxwrite=2, feat='"close"'), 30, 0, None, 2, {"allconc": not q}),
            ("seq_sim", C(nc=3, ns=2, units=3, maxwrite=3, feat='"swrite","close","fault","readfrom"'), 60, 1, 200 if q else 4000, 3, {}),
            # a singleplex client: the stream's closing frame goes out before the session's closing notice
            ("seq_single", C(nc=1, ns=2, units=2, maxwrite=2, single="TRUE", feat='"swrite","close"'), 30, 0, 150 if q else 2000, 1, {"singleplex": True})]
    return muxprop.run_property(ctx, LEVEL, ASSUME, KEYS, [], gens, RULE, extra=extra)


replay = muxprop.replay_file
