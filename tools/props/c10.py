"""C10 - everything on the wire in direct mode is a well-formed TLS record stream (spec/WireTLS*.tla).

1. WireTLS.tla = the observer (two automata over abstract records + the session-id echo) and a sender model of the
   two endpoints at the granularity "one conn.Write = one record".  TLC checks that the observer accepts
   everything the sender model emits under the size constants READ FROM THE CODE UNDER TEST, and that it rejects
   what the six seeded defects emit (negative configurations: the rules are not vacuous).
2. The rig (harness/server/c10_test.go): real client + real server over the in-memory network, the tap of every
   connection parsed by the independent parser harness/kit/tlsparse.go; one abstract event per record.
3. WireTLSTrace.tla validates every recorded connection with the same observer; the Go driver judges the same
   records with its own formulation; the two verdicts must agree connection by connection.
The verdict comes from the recorded connections (3); the model check (1) only shows that the observer is
consistent with the design and able to reject.
"""
import concurrent.futures
import json
import os
import re
import subprocess

import lib

LEVEL = "model_checking"
LEVEL_NOTE = ("the observer automaton is model-checked against a sender model of the design (consistency, non-vacuity); the "
              "claim about the code is trace validation: every connection recorded from the real client and server in the rig "
              "is accepted by that observer in TLC and by a second formulation in Go - the strength of the result is the set "
              "of recorded connections (configurations x traffic patterns listed in coverage), not the size of the model")
ASSUME = [
    "direct mode only (client Transport=direct); the CDN/WebSocket transport is outside the statement",
    "the tap sees whole conn.Write calls of the in-memory network in their wire order; TCP segmentation does not change the byte streams that are parsed",
    "the independent parser (harness/kit/tlsparse.go, RFC 8446 grammar, no code shared with Cloak) is trusted; TestVerifC10Parser checks it against truncated, shortened and mutated genuine hellos",
    "the record version of ServerHello/ChangeCipherSpec records is only required to be 3.x, as for the ClientHello (the statement fixes 3.3 for application-data records only); the observed values are logged",
    "schedules: goroutine interleavings are those the Go scheduler produces inside testing/synctest bubbles over the scenarios run; virtual time makes the 30 s inactivity paths reachable",
]

JVM = {"JAVA_TOOL_OPTIONS": "-Xss64m -XX:ParallelGCThreads=2 -XX:TieredStopAtLevel=1"}


CONST_TESTS = {
    # package -> body of a generated in-package test that prints the COMPILED values (any constant expression works)
    "client": 'fmt.Println("VERIFCONST client_limit", int64(appDataMaxLength))',
    "server": 'fmt.Println("VERIFCONST server_limit", int64(appDataMaxLength))',
    "multiplex": 'fmt.Println("VERIFCONST frame_hdr", int64(frameHeaderLength)); fmt.Println("VERIFCONST max_extra", int64(maxExtraLen))',
    # the limit of TLSConn.Write is a literal inside the function: measured by bisection on what Write accepts
    "common": """lo, hi := 0, 1<<17
	for lo < hi {
		mid := (lo + hi + 1) / 2
		if _, err := NewTLSConn(verifC10Sink{}).Write(make([]byte, mid)); err == nil {
			lo = mid
		} else {
			hi = mid - 1
		}
	}
	fmt.Println("VERIFCONST write_limit", int64(lo))""",
}
CONST_SINK = """
type verifC10Sink struct{ net.Conn }

func (verifC10Sink) Write(p []byte) (int, error) { return len(p), nil }
"""


def code_constants(ctx):
    """Size constants of the code under test, taken from the COMPILED packages: a tiny generated in-package test per
    package prints them (named constants, arithmetic, anything the compiler accepts).  Returns None (with a note) if
    they cannot be obtained: the verdict never depends on them, only the 'model under the code's constants' run does."""
    d = os.path.join(ctx.work, "consts")
    os.makedirs(d, exist_ok=True)
    repl = {}
    for pkg, body in CONST_TESTS.items():
        imports = '"fmt"\n\t"testing"' + ('\n\t"net"' if pkg == "common" else "")
        src = 'package %s\n\nimport (\n\t%s\n)\n%s\nfunc TestVerifC10Const(t *testing.T) {\n\t%s\n}\n' % (
            pkg, imports, CONST_SINK if pkg == "common" else "", body)
        f = os.path.join(d, "c10const_%s_test.go" % pkg)
        open(f, "w").write(src)
        repl[os.path.join(lib.REPO, "internal", pkg, "zzverif_c10const_test.go")] = f
    ov = os.path.join(d, "overlay.json")
    json.dump({"Replace": repl}, open(ov, "w"))
    e = dict(os.environ)
    e.update(lib.GOENV)
    e.pop("GOSUMDB", None)
    cmd = [lib.GOBIN, "test", "-overlay", ov, "-count=1", "-vet=off", "-run", "^TestVerifC10Const$", "-v"] + \
          ["./internal/%s/" % p for p in CONST_TESTS]
    try:
        p = subprocess.run(cmd, cwd=lib.REPO, env=e, stdout=subprocess.PIPE, stderr=subprocess.STDOUT, text=True, timeout=900)
    except subprocess.TimeoutExpired:
        ctx.notes.append("constants: go test timed out")
        return None
    c = {m.group(1): int(m.group(2)) for m in re.finditer(r"^VERIFCONST (\w+) (-?\d+)$", p.stdout, re.M)}
    want = {"server_limit", "client_limit", "write_limit", "frame_hdr", "max_extra"}
    if set(c) != want:
        ctx.notes.append("constants of the compiled code not available (%s): %s" % (sorted(want - set(c)), p.stdout[-600:]))
        return None
    return c


def _mc(ctx, tag, dev="{}", inv="TypeOK ObserverAccepts InStep", expect=False, wire=None, write=None, k=None, frames=3):
    sub = {"WIRELIMIT": wire if wire is not None else max(k["server_limit"], k["client_limit"]),
           "WRITELIMIT": write if write is not None else k["write_limit"],
           "FRAMEHDR": k["frame_hdr"], "MAXEXTRA": k["max_extra"], "MAXFRAMES": frames, "DEV": dev, "INV": inv}
    return lib.run_tlc(ctx, "WireTLS", "WireTLS_mc.cfg", sub, tag=tag, workers=2, expect_violation=True, env=JVM, timeout=600)


def _validate(ctx, path, tag):
    return lib.run_tlc(ctx, "WireTLSTrace", "WireTLSTrace.cfg", workers=1, env=dict(JVM, VERIF_TRACE=path),
                       expect_violation=True, tag=tag, dfs=False, timeout=1200)


def run(ctx):
    q = ctx.quick()
    pool = concurrent.futures.ThreadPoolExecutor(max_workers=8)
    go_f = pool.submit(lib.run_go, ctx, "server", "TestVerifC10(Rig|Parser)", None, 2400, None, False, "TestVerifC10Rig")
    const_f = pool.submit(code_constants, ctx)
    std = {"server_limit": 16401, "client_limit": 16401, "write_limit": 16640, "frame_hdr": 14, "max_extra": 255}   # the design's values
    mc = {
        "mc_design_constants": pool.submit(_mc, ctx, "mc_design_constants", k=std, frames=3 if q else 6),
        "neg_no_echo": pool.submit(_mc, ctx, "neg_no_echo", dev='{"NoEcho"}', inv="ObserverAccepts", k=std),
        "neg_version_34": pool.submit(_mc, ctx, "neg_version_34", dev='{"Ver34"}', inv="ObserverAccepts", k=std),
        "neg_empty_notice": pool.submit(_mc, ctx, "neg_empty_notice", dev='{"EmptyNotice"}', inv="ObserverAccepts", k=std),
        "neg_empty_frame_sent": pool.submit(_mc, ctx, "neg_empty_frame_sent", dev='{"EmptyFrameSent"}', inv="ObserverAccepts", k=std),
        "neg_random_flag_from_servername": pool.submit(_mc, ctx, "neg_random_flag_from_servername", dev='{"RandomFlagFromServerName"}', inv="ObserverAccepts", k=std),
        "neg_limit_16700": pool.submit(_mc, ctx, "neg_limit_16700", inv="ObserverAccepts", k=std, wire=16700, write=16700),
    }
    k = const_f.result()
    ctx.log("constants of the compiled code under test: %s" % k)
    if k is not None and k != std:
        mc["mc_code_constants"] = pool.submit(_mc, ctx, "mc_code_constants", k=k, frames=3 if q else 6)
    mcr = {n: f.result() for n, f in mc.items()}
    for n, r in mcr.items():
        if n.startswith("neg_") and r.violated != "ObserverAccepts":
            raise lib.Inconclusive("negative configuration %s was not rejected by the observer (got %s): the grammar would be vacuous" % (n, r.violated))
    lib.require_ok(mcr["mc_design_constants"], "WireTLS with the design's constants")
    model_ok = "mc_code_constants" not in mcr or mcr["mc_code_constants"].ok
    if model_ok:
        ctx.log("observer accepts the sender model (%d distinct states, constants %s); 6 negative configurations rejected"
                % (mcr["mc_design_constants"].distinct, "= the compiled code's" if k == std else "of the design; the code's: %s" % k))
    else:
        # not a verdict yet: the recorded connections decide (a model counter-example must be reproduced on the code)
        ctx.log("MODEL: with the constants of the compiled code %s the sender model violates %s; the recorded connections decide"
                % (k, mcr["mc_code_constants"].violated))

    g = go_f.result()
    lib.collect_go(ctx, g)
    out = g["_out_dir"]
    files = []
    for n in g.get("notes", []):
        if n.startswith("trace_files="):
            files = [f for f in n[len("trace_files="):].split(",") if f]
    if not files:
        raise lib.Inconclusive("the rig recorded no trace")
    # what the Go formulation rejected, per (scenario, connection)
    go_rej = {}
    jp = os.path.join(out, "judged.ndjson")
    if os.path.exists(jp):
        for line in open(jp):
            if line.strip():
                j = json.loads(line)
                go_rej[(j["scn"], j["conn"])] = j
    futs = {f: pool.submit(_validate, ctx, os.path.join(out, f), "trace_" + f.split(".")[0]) for f in files}
    conns_ok = 0
    events = 0
    tlc_rejections = 0
    for f in files:
        v = futs[f].result()
        lines = open(os.path.join(out, f)).read().splitlines()
        events += len(lines)
        opens = [(i + 1, json.loads(l)) for i, l in enumerate(lines) if '"ev":"Open"' in l]
        if v.ok:
            conns_ok += len(opens)
            bad = [o for _, o in opens if (o["scn"], o["conn"]) in go_rej]
            if bad:
                raise lib.Inconclusive("the two formulations disagree: TLC accepts %s but the Go observer rejected connection %s "
                                       "(%s)" % (f, (bad[0]["scn"], bad[0]["conn"]), go_rej[(bad[0]["scn"], bad[0]["conn"])]))
            continue
        if not v.rejected_at:
            raise lib.Inconclusive("trace validation of %s failed without a rejected line (%s):\n%s" % (f, v.violated, v.out[-1500:]))
        tlc_rejections += 1
        line = v.rejected_at
        m = re.search(r'<<"REJECTED_KEY", %d, "([^"]+)">>' % line, v.out)
        key = m.group(1) if m else "trace-rejected"
        ev = json.loads(lines[line - 1]) if line <= len(lines) else {}
        op = [o for i, o in opens if i < line][-1] if [1 for i, _ in opens if i < line] else {}
        conns_ok += len([1 for i, _ in opens if i < line]) - 1
        first_go = None
        for i, o in opens:   # the first connection of this file the Go observer rejected
            if (o["scn"], o["conn"]) in go_rej:
                first_go = go_rej[(o["scn"], o["conn"])]
                break
        if not first_go or (first_go["scn"], first_go["conn"], first_go["key"]) != (op.get("scn"), op.get("conn"), key):
            raise lib.Inconclusive("the two formulations disagree on %s: TLC rejects line %d (connection %s of scenario %s, %s) "
                                   "but the first rejection of the Go observer is %s" % (f, line, op.get("conn"), op.get("scn"), key, first_go))
        ctx.violations.append({"key": key,
                               "what": "recorded connection %s of scenario %s (%s, %s) is not accepted by the observer of WireTLS: "
                                       "%s record #%s type=%s version=%s.%s length=%s breaks %s" % (
                                           op.get("conn"), op.get("scn"), op.get("browser"), op.get("pattern"), ev.get("dir"), ev.get("idx"),
                                           ev.get("type"), ev.get("vmaj"), ev.get("vmin"), ev.get("len"), key),
                               "replay": {"scenario_id": op.get("scn"), "conn": op.get("conn"), "event": ev, "trace_file": f, "line": line,
                                          "note": "the same rejection is reported by the Go observer with a replayable scenario"}})
    st = g["stats"]
    if st.get("rig_stuck") and not ctx.violations:
        raise lib.Inconclusive("the client never established a session in the rig and nothing on the wire was outside the grammar: %s" % g.get("notes"))
    if not model_ok and not ctx.violations:
        raise lib.Inconclusive("model counter-example (%s under the code's constants %s) not reproduced on the code by any recorded connection"
                               % (mcr["mc_code_constants"].violated, k))
    if k is not None and st.get("client_session_MsgOnWireSizeLimit") not in (None, k["client_limit"]):
        ctx.notes.append("client sessions run with MsgOnWireSizeLimit %s, the generated test printed %s" % (st.get("client_session_MsgOnWireSizeLimit"), k["client_limit"]))
    ctx.log("rig: %d scenarios, %d connections, %d+%d records, largest application record %d; TLC accepted %d connections (%d events), rejected %d file(s)"
            % (st.get("scenarios", 0), st.get("connections", 0), st.get("records_c2s", 0), st.get("records_s2c", 0), st.get("max_app_record", 0),
               conns_ok, events, tlc_rejections))
    cov = {
        "evaluations": g["evaluations"],
        "distinct_nontrivial": g["distinct_nontrivial"],
        "rule": "one evaluation = one rig scenario (browser signature x server name incl. random/RANDOM x encryption method x NumConn "
                "{1,2,4}, singleplex, unordered x traffic pattern: small, multiframe up to 3x16 KiB, manystreams, target-closes, banner, "
                "server-close via ActiveUser.CloseSession, inactivity, idle, link fault, abrupt client close, pipelined, empty-from-target = UDP-style proxy target whose answer contains empty datagrams (server relay Stream.ReadFrom sees (0, nil)), empty-from-app = RouteTCP-style client relay of a local connection that reads (0, nil)), plus the parser self-test "
                "inputs; quick = two rounds of the full product (2 x 516 scenarios), thorough = 40 rounds with fresh names / sizes / seeds; distinct = "
                "distinct scenario signatures; non-trivial = session established, application records in both directions beyond the handshake",
        "samples": g["samples"],
        "traces_validated_against_impl": conns_ok,
        "trace_events_validated": events,
        "connections_recorded": st.get("connections", 0),
        "records_c2s": st.get("records_c2s", 0), "records_s2c": st.get("records_s2c", 0),
        "largest_application_record": st.get("max_app_record", 0),
        "code_constants": k,
        "level_note": LEVEL_NOTE,
        "exhaustive": False,
        "checker_cmd": "tlc WireTLS.tla (7 configurations) / WireTLSTrace.tla (one run per trace file) + go test -run 'TestVerifC10(Rig|Parser)'",
        "harness_stats": st,
    }
    ctx.notes.append(LEVEL_NOTE)
    return lib.finish(ctx, LEVEL, cov, ASSUME)


def replay(ctx, path):
    res = lib.run_go(ctx, "server", "TestVerifC10Rig", env={"VERIF_REPLAY": os.path.abspath(path)}, extra_args=["-v"])
    print(open(os.path.join(res["_out_dir"], "go.out")).read())
    return 0
